#!/venv/bin/python
"""Self-test of the checkers (DESIGN.md section 7).

Applies each entry of selftest/faults.json (a change that breaks a property
while the 846 tests still pass) and selftest/equivalents.json (a
behaviour-preserving edit) to a scratch copy of <repo>/pamqp made under a
fresh temporary directory, runs the named checks against the copy and
compares the outcome with the expectation:

  fault       -> every listed property's check must exit 1 (VIOLATION)
  equivalent  -> every check must exit 0; exit 2 is recorded as a coverage
                 gap of the analyser, exit 1 as a false alarm

usage: selftest/run.py [--props C01,C02] [--kind faults|equivalents|seeded|all]
                       [--jobs N] [--json OUT]
Scratch copies are removed as soon as the variant has been analysed.
"""
import argparse
import concurrent.futures
import json
import os
import shutil
import subprocess
import sys
import tempfile

HERE = os.path.dirname(os.path.abspath(__file__))
VERIF = os.path.dirname(HERE)
ALL = ['C%02d' % i for i in range(1, 21)]


def load(kind):
    p = os.path.join(HERE, kind + '.json')
    if not os.path.exists(p):
        return []
    with open(p) as fh:
        return json.load(fh)


def load_seeded():
    out = []
    root = os.path.join(VERIF, 'seeded')
    if not os.path.isdir(root):
        return out
    for d in sorted(os.listdir(root)):
        meta = os.path.join(root, d, 'meta.json')
        patch = os.path.join(root, d, 'patch.diff')
        if os.path.exists(meta) and os.path.exists(patch) and \
                d.startswith('eq-'):
            out.append({'id': 'seeded/' + d, 'props': [], 'patch': patch,
                        'equivalent': True})
            continue
        if os.path.exists(meta) and os.path.exists(patch):
            m = json.load(open(meta))
            out.append({'id': 'seeded/' + d, 'props': m.get('detected_by') or
                        [m['property']], 'patch': patch,
                        'expect_miss': m.get('expect_miss', False)})
    return out


def apply_variant(entry, repo):
    tmp = tempfile.mkdtemp(prefix='pamqp-selftest-')
    shutil.copytree(os.path.join(repo, 'pamqp'), os.path.join(tmp, 'pamqp'))
    if 'patch' in entry:
        r = subprocess.run(['git', 'apply', '--unsafe-paths',
                            '--directory=' + tmp, entry['patch']],
                           capture_output=True, text=True, cwd=tmp)
        if r.returncode != 0:
            r = subprocess.run(['patch', '-p1', '-s', '-i', entry['patch']],
                               capture_output=True, text=True, cwd=tmp)
            if r.returncode != 0:
                shutil.rmtree(tmp)
                return None, 'patch does not apply: ' + (r.stderr or
                                                         r.stdout)[:200]
        return tmp, None
    for f, old, new in entry['edits']:
        p = os.path.join(tmp, 'pamqp', f)
        s = open(p).read()
        if old not in s:
            shutil.rmtree(tmp)
            return None, 'stale: pattern not found in %s: %r' % (f, old[:50])
        open(p, 'w').write(s.replace(old, new, 1))
    return tmp, None


def run_entry(args):
    entry, kind, repo, only = args
    props = entry.get('props') or ALL
    if kind == 'equivalents':
        props = entry.get('props') or ALL
    if only:
        props = [p for p in props if p in only]
        if not props:
            return None
    tmp, err = apply_variant(entry, repo)
    res = {'id': entry['id'], 'kind': kind, 'props': {}, 'error': err}
    if tmp is None:
        return res
    try:
        # the variant must still compile
        c = subprocess.run(['/venv/bin/python', '-m', 'compileall', '-q',
                            os.path.join(tmp, 'pamqp')],
                           capture_output=True, text=True)
        if c.returncode != 0:
            res['error'] = 'variant does not compile'
            return res
        env = dict(os.environ, VERIF_EVIDENCE_DIR=os.path.join(tmp, 'ev'))
        for p in props:
            r = subprocess.run([os.path.join(VERIF, 'check'), p, '--repo',
                                tmp], capture_output=True, text=True,
                               env=env, timeout=600)
            first = ''
            for line in r.stdout.splitlines():
                if line.startswith('  construct') or \
                        line.startswith('ANALYSIS-ERROR'):
                    first = line.strip()[:160]
                    break
            res['props'][p] = {'exit': r.returncode, 'first': first}
    finally:
        shutil.rmtree(tmp, ignore_errors=True)
    return res


def main():
    ap = argparse.ArgumentParser()
    ap.add_argument('--props', default='')
    ap.add_argument('--kind', default='all')
    ap.add_argument('--repo', default='/repo')
    ap.add_argument('--jobs', type=int, default=16)
    ap.add_argument('--json', default='')
    ap.add_argument('--quiet', action='store_true')
    a = ap.parse_args()
    only = [p for p in a.props.split(',') if p]
    kinds = ['faults', 'equivalents', 'seeded'] if a.kind == 'all' \
        else [a.kind]
    work = []
    for k in kinds:
        entries = load_seeded() if k == 'seeded' else load(k)
        for e in entries:
            kk = 'faults' if k == 'seeded' else k
            if e.get('equivalent'):
                kk = 'equivalents'
            work.append((e, kk, a.repo, only))
    results = []
    with concurrent.futures.ThreadPoolExecutor(a.jobs) as ex:
        for r in ex.map(run_entry, work):
            if r is not None:
                results.append(r)
    summary = {'faults': 0, 'detected': 0, 'missed': [], 'equivalents': 0,
               'silent': 0, 'false_alarms': [], 'gaps': [], 'errors': []}
    for r in results:
        if r['error']:
            summary['errors'].append('%s: %s' % (r['id'], r['error']))
            continue
        if r['kind'] == 'faults':
            for p, o in r['props'].items():
                summary['faults'] += 1
                if o['exit'] == 1:
                    summary['detected'] += 1
                else:
                    summary['missed'].append('%s %s exit=%d %s' % (
                        r['id'], p, o['exit'], o['first']))
        else:
            for p, o in r['props'].items():
                summary['equivalents'] += 1
                if o['exit'] == 0:
                    summary['silent'] += 1
                elif o['exit'] == 1:
                    summary['false_alarms'].append('%s %s %s' % (
                        r['id'], p, o['first']))
                else:
                    summary['gaps'].append('%s %s %s' % (r['id'], p,
                                                         o['first']))
    if a.json:
        with open(a.json, 'w') as fh:
            json.dump({'summary': summary, 'results': results}, fh,
                      indent=1)
    if not a.quiet:
        print('faults: %d detected of %d' % (summary['detected'],
                                             summary['faults']))
        for m in summary['missed']:
            print('  SELFTEST-MISS', m)
        print('equivalents: %d silent of %d' % (summary['silent'],
                                                summary['equivalents']))
        for m in summary['false_alarms']:
            print('  SELFTEST-FALSE-ALARM', m)
        for m in summary['gaps']:
            print('  SELFTEST-GAP', m)
        for m in summary['errors']:
            print('  SELFTEST-ERROR', m)
    return summary


if __name__ == '__main__':
    s = main()
    sys.exit(0)
