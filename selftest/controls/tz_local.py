"""Positive control for C15.A: every statement below is time-zone dependent
and must be flagged by the scanner on every run (never imported or run)."""
import datetime
import time


def bad(value, ts):
    a = time.mktime(value)
    b = datetime.datetime.fromtimestamp(ts)
    c = datetime.datetime.now()
    d = value.astimezone()
    e = time.localtime(ts)
    return a, b, c, d, e
