"""Positive control for the "no caching wrapper" rules (C08.M, C15.W,
C20.S): every function below is memoised and must be classified as caching
(never imported)."""
import functools
from functools import lru_cache as memo


@functools.lru_cache(maxsize=1024)  # 1
def a(x):
    return x


@functools.lru_cache  # 2
def b(x):
    return x


@functools.cache  # 3
def c(x):
    return x


@memo(maxsize=None)  # 4
def d(x):
    return x


class K:
    @functools.cached_property  # 5
    def e(self):
        return 1
