"""Positive control for C17.C (import-time writers): part 2 - another module
of the package stores into pamqp.constants while it is imported."""
import os

from pamqp import constants
from pamqp import constants as _c

setattr(constants, 'FRAME_END', 1)  # 3
constants.FRAME_MAX_SIZE = 4096  # 4
vars(constants)['DEFAULT_PORT'] = 1  # 5
_c.__dict__.update(DEFAULT_HOST='x')  # 6
for _k in os.environ:
    if _k.startswith('PAMQP_'):
        setattr(_c, _k[6:], os.environ[_k])  # 7


class Late:
    constants.VERSION = (0, 9, 2)  # 8
