"""Positive control for C17.C (import-time writers): part 1 - the module
rewrites its own namespace (never imported)."""
FRAME_END = 206
globals()['FRAME_END'] = 207  # 1
globals().update(FRAME_MIN_SIZE=1)  # 2
