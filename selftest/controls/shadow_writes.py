"""Positive control for C14.I: every store below shadows or rewrites a
catalogue attribute and must be flagged by the scan (never imported)."""
from pamqp import base, commands


class Probe(base.Frame):
    __slots__ = ['ticket']
    _ticket = 'short'

    def marshal(self):
        self.synchronous = False  # 1: instance shadows the class flag
        return b''

    @classmethod
    def tweak(cls):
        cls.valid_responses = []  # 2: class attribute rebound


def rewrite(frame):
    frame.frame_id = 0  # 3: unknown receiver, distinctive name
    commands.Basic.Ack.name = 'x'  # 4: resolved frame class
    setattr(frame, 'index', 1)  # 5: constant-name setattr
    del frame._ticket  # 6: wire-type attribute removed
