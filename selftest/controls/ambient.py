"""Positive control for C16.E: every function below consults ambient
process or thread state and must be flagged (never imported)."""
import decimal
import locale
import os
import random
import threading
import time
from decimal import getcontext as _ctx


def a(value):
    if decimal.getcontext().flags[decimal.Inexact]:  # 1
        raise TypeError
    return value


def b():
    return os.environ.get('X'), os.getenv('Y')  # 2, 3


def c():
    return locale.getpreferredencoding()  # 4


def d():
    return random.random() + time.time()  # 5, 6


def e():
    return threading.get_ident(), _ctx()  # 7, 8
