#!/venv/bin/python
"""Source of selftest/faults.json and selftest/equivalents.json (kept as a
Python file so that multi-line replacement texts stay readable).  Each fault
is a change that breaks the named properties while compiling and passing the
846 repository tests (qualified by selftest/qualify.py); each equivalent is a
behaviour-preserving edit on which every check must stay silent."""
import json
import os

HERE = os.path.dirname(os.path.abspath(__file__))
F = []
E = []


def fault(id_, props, *edits):
    F.append({'id': id_, 'props': props,
              'edits': [list(e) for e in edits]})


def equiv(id_, props, *edits):
    E.append({'id': id_, 'props': props,
              'edits': [list(e) for e in edits]})


# ---- C01 / C04 layout
fault('bit-msb-first', ['C01', 'C04'], ('base.py',
      'byte = encode.bit(data_value, byte, offset)',
      'byte = encode.bit(data_value, byte, 7 - offset)'))
fault('bit-octet-skip-dropped', ['C01'], ('base.py',
      "                processing_bitset = False\n                data = data[1:]",
      "                processing_bitset = False"))
fault('channel-masked', ['C01', 'C04', 'C20'], ('frame.py',
      "struct.pack('>BHI', frame_type, channel_id, len(payload))",
      "struct.pack('>BHI', frame_type, channel_id & 0xFF, len(payload))"))
fault('payload-slice-includes-end', ['C01', 'C18'], ('frame.py',
      'frame_data = data_in[constants.FRAME_HEADER_SIZE:byte_count - 1]',
      'frame_data = data_in[constants.FRAME_HEADER_SIZE:byte_count]'))
fault('decode-short-signed', ['C01', 'C05', 'C10'], ('decode.py',
      "    'short': short_uint,", "    'short': short_int,"))
fault('size-plus-one', ['C04', 'C20'], ('frame.py',
      "struct.pack('>BHI', frame_type, channel_id, len(payload))",
      "struct.pack('>BHI', frame_type, channel_id, len(payload) + 1)"))
fault('prefix-counts-characters', ['C04', 'C10'], ('encode.py',
      'return encoder.pack(len(temp)) + temp',
      'return encoder.pack(len(value)) + temp'))
fault('nack-slots-swapped', ['C04', 'C14'], ('commands.py',
      "'delivery_tag', 'multiple', 'requeue'",
      "'delivery_tag', 'requeue', 'multiple'"))
fault('index-changed', ['C14'], ('commands.py',
      'index = 0x000A0028', 'index = 0x000A0029'))
fault('default-changed', ['C14'], ('commands.py',
      'requeue: bool = True', 'requeue: bool = False'))
fault('attr-type-changed', ['C14', 'C04'], ('commands.py',
      "_frame_max = 'long'", "_frame_max = 'short'"))
# ---- C02
fault('presence-truthiness', ['C02', 'C04'], ('base.py',
      "if property_value is not None and property_value != '':",
      'if property_value:'))
fault('props-offset-dropped', ['C02'], ('header.py',
      'self.properties.unmarshal(flags, data[12 + offset:])',
      'self.properties.unmarshal(flags, data[12:])'))
fault('body-size-signed', ['C02'], ('header.py',
      "'>HHQ', data[0:12]", "'>HHq', data[0:12]"))
fault('flag-bit-moved', ['C14'], ('commands.py',
      "'priority': 2048,", "'priority': 2,"))
# ---- C03 / C05 / C10 / C11
fault('bool-int-arms-swapped', ['C03'], ('encode.py',
      "    if isinstance(value, bool):\n        return b't' + boolean(value)\n    elif isinstance(value, int):\n        return table_integer(value)",
      "    if isinstance(value, int):\n        return table_integer(value)\n    elif isinstance(value, bool):\n        return b't' + boolean(value)"))
fault('tag-u-decoded-signed', ['C03', 'C05', 'C10'], ('decode.py',
      "    b'u': short_uint,", "    b'u': short_int,"))
fault('table-key-length-signed', ['C03'], ('decode.py',
      'key_length = common.Struct.byte.unpack_from(value, offset)[0]',
      'key_length = common.Struct.short_short_int.unpack_from(value, offset)[0]'))
fault('array-none-skipped', ['C03'], ('encode.py',
      '        data.append(encode_table_value(item))',
      "        data.append(encode_table_value(item) if item is not None else b'')"))
fault('tag-B-decoded-signed', ['C05'], ('decode.py',
      "    b'B': short_short_uint,", "    b'B': short_short_int,"))
fault('validate-on-receive', ['C05'], ('base.py',
      "            if consumed:\n                data = data[consumed:]",
      "            if consumed:\n                data = data[consumed:]\n        self.validate()"))
fault('longstr-fallback-consumed', ['C05'], ('decode.py',
      "        return length + 4, value[4:length + 4]\n",
      "        return length, value[4:length + 4]\n"))
fault('timestamp-threshold', ['C05'], ('decode.py',
      'if ts_value > 0xFFFFFFFF:', 'if ts_value > 0x7FFFFFFF:'))
fault('refuse-unsorted-keys', ['C05'], ('decode.py',
      '            data[key] = result',
      "            if data and key < max(data):\n                raise ValueError('unsorted')\n            data[key] = result"))
fault('ladder-off-by-one', ['C11'], ('encode.py',
      "    elif -32768 <= value <= 32767:\n        return b's' + short_int(value)\n    elif 0 <= value <= 65535:",
      "    elif -32768 <= value < 32767:\n        return b's' + short_int(value)\n    elif 0 <= value <= 65535:"))
fault('legacy-gets-u-arm', ['C11'], ('encode.py',
      "        return b's' + short_int(value)\n    elif -2147483648 <= value <= 2147483647:\n        return b'I' + long_int(value)\n    elif -9223372036854775808",
      "        return b's' + short_int(value)\n    elif 0 <= value <= 65535:\n        return b'u' + short_uint(value)\n    elif -2147483648 <= value <= 2147483647:\n        return b'I' + long_int(value)\n    elif -9223372036854775808"))
fault('long-int-guard-narrowed', ['C11'], ('encode.py',
      'elif not (-2147483648 <= value <= 2147483647):',
      'elif not (-2147483647 <= value <= 2147483647):'))
fault('switch-captured-in-default', ['C11'], ('encode.py',
      'def table_integer(value: int) -> bytes:',
      'def table_integer(value: int, _legacy=DEPRECATED_RABBITMQ_SUPPORT) -> bytes:'),
      ('encode.py',
       "    if DEPRECATED_RABBITMQ_SUPPORT:\n        return _deprecated_table_integer(value)",
       "    if _legacy:\n        return _deprecated_table_integer(value)"))
fault('revert-F1-tag-b-unsigned', ['C11', 'C03'], ('encode.py',
      "        return b'b' + short_short_int(value)\n    elif -32768 <= value <= 32767:\n        return b's' + short_int(value)\n    elif 0 <= value <= 65535:",
      "        return b'b' + octet(value)\n    elif -32768 <= value <= 32767:\n        return b's' + short_int(value)\n    elif 0 <= value <= 65535:"))
fault('revert-F2-decimal-unsigned', ['C03', 'C05', 'C10'], ('decode.py',
      'raw = common.Struct.long.unpack(value[1:5])[0]',
      'raw = common.Struct.integer.unpack(value[1:5])[0]'))
fault('revert-F7-bit-unguarded', ['C10'], ('encode.py',
      "    if not isinstance(value, int) or not 0 <= value <= 1:\n        raise TypeError('bool required, received {!r}'.format(value))\n",
      ""))
fault('revert-F8-falsy-table', ['C10'], ('encode.py',
      '    if value is None:  # If there is no value',
      '    if not value:  # If there is no value'))
fault('mask-before-pack', ['C10'], ('encode.py',
      '    return common.Struct.ushort.pack(value)',
      '    return common.Struct.ushort.pack(value & 0xFFFF)'),
      ('encode.py', "    elif not (0 <= value <= 65535):\n        raise TypeError('Short unsigned integer range: 0 to 65535')\n", ""))
# ---- C06 / C07 / C20
fault('revert-F3-heartbeat-early', ['C06', 'C07'], ('frame.py',
      "    # Heartbeats do not have a payload, every other frame type does\n    if not frame_size and frame_type != constants.FRAME_HEARTBEAT:",
      "    if frame_type == constants.FRAME_HEARTBEAT and frame_size == 0:\n        return 8, channel_id, heartbeat.Heartbeat()\n\n    if not frame_size and frame_type != constants.FRAME_HEARTBEAT:"))
fault('length-guard-off-by-one', ['C07'], ('frame.py',
      '    if byte_count > len(data_in):',
      '    if byte_count > len(data_in) + 1:'))
fault('consumed-without-end-octet', ['C06'], ('frame.py',
      '        return byte_count, channel_id, _unmarshal_body_frame(frame_data)',
      '        return byte_count - 1, channel_id, _unmarshal_body_frame(frame_data)'))
fault('body-view-unbounded', ['C06', 'C18'], ('frame.py',
      '        return byte_count, channel_id, _unmarshal_body_frame(frame_data)',
      '        return byte_count, channel_id, _unmarshal_body_frame(data_in[constants.FRAME_HEADER_SIZE:])'))
fault('frame-parts-signed', ['C20'], ('frame.py',
      "return struct.unpack('>BHI', data[0:constants.FRAME_HEADER_SIZE])",
      "return struct.unpack('>BHi', data[0:constants.FRAME_HEADER_SIZE])"))
fault('frame-parts-handler-removed', ['C20', 'C07'], ('frame.py',
      "    try:  # Get the Frame Type, Channel Number and Frame Size\n        return struct.unpack('>BHI', data[0:constants.FRAME_HEADER_SIZE])\n    except struct.error:  # Did not receive a full frame\n        return UNMARSHAL_FAILURE",
      "    return struct.unpack('>BHI', data[0:constants.FRAME_HEADER_SIZE])"))
# ---- C08 / C09
fault('cursor-assigned-not-advanced', ['C08'], ('decode.py',
      "            consumed, result = embedded_value(value[offset:])\n            offset += consumed\n            data[key] = result",
      "            consumed, result = embedded_value(value[offset:])\n            offset = consumed\n            data[key] = result"))
fault('key-length-read-unchecked', ['C08'], ('decode.py',
      "            key_length = common.Struct.byte.unpack_from(value, offset)[0]\n            offset += 1",
      "            key_length = value[offset] if offset < len(value) else 0\n            offset += 1"))
# found by the systematic mutation sweep (tools/mutsweep.py): mutants the
# test-suite and, at first, every check let pass
fault('ms-decimal-or', ['C03'], ('encode.py',
      "isinstance(exponent, int) and exponent < 0",
      "isinstance(exponent, int) or exponent < 0"))
fault('ms-decimal-minus-one', ['C10'], ('encode.py',
      "isinstance(exponent, int) and exponent < 0",
      "isinstance(exponent, int) and exponent < -1"))
fault('ms-bit-true-refused', ['C01'], ('encode.py',
      "not 0 <= value <= 1", "not 0 <= value <= 0"))
fault('ms-key-limit-129', ['C04'], ('encode.py',
      "if len(key) > 128:", "if len(key) > 129:"))
fault('ms-continuation-bit-1', ['C05'], ('header.py',
      "if not partial_flags & 1:", "if not partial_flags & 2:"))
fault('ms-continuation-never', ['C05'], ('header.py',
      "if not partial_flags & 1:", "if not partial_flags & 0:"))
fault('ms-protocol-header-consumed', ['C18'], ('header.py',
      "        return 8", "        return 9"))
fault('revert-F12-reported-count', ['C08'], ('decode.py',
      "            data[key] = result\n        return offset, data",
      "            data[key] = result\n        return field_table_end, data"))
fault('revert-F4-array-guard', ['C08'], ('decode.py',
      "        if field_array_end > len(value):\n            raise ValueError('Field array length exceeds available data')\n", ""))
fault('revert-F5-flags-offset', ['C08'], ('header.py',
      "decode.short_int(\n                data[bytes_consumed:])",
      "decode.short_int(data)"))
fault('handler-narrowed', ['C09'], ('frame.py',
      "    except DECODE_ERRORS as error:\n        raise exceptions.UnmarshalingException(method, error)",
      "    except struct.error as error:\n        raise exceptions.UnmarshalingException(method, error)"))
fault('keyerror-handler-removed', ['C09'], ('decode.py',
      "    try:\n        bytes_consumed, temp = TABLE_MAPPING[value[0:1]](value[1:])\n    except KeyError:\n        raise ValueError('Unknown type: {!r}'.format(value[:1]))",
      "    bytes_consumed, temp = TABLE_MAPPING[value[0:1]](value[1:])"))
fault('index-read-outside-try', ['C09'], ('frame.py',
      "    try:\n        bytes_used, method_index = decode.long_int(frame_data[0:4])\n    except struct.error as error:\n        raise exceptions.UnmarshalingException('Unknown', error)\n",
      "    bytes_used, method_index = decode.long_int(frame_data[0:4])\n"))
# ---- C12
fault('sorted-dropped', ['C12', 'C04'], ('encode.py',
      'for key, value in sorted(value.items()):',
      'for key, value in value.items():'))
fault('argument-list-popped', ['C12'], ('encode.py',
      "    data = []\n    for item in value:\n        data.append(encode_table_value(item))",
      "    data = []\n    while value:\n        data.append(encode_table_value(value.pop(0)))"))
fault('setattr-in-marshal', ['C12'], ('base.py',
      '            data_value = getattr(self, argument, 0)',
      '            data_value = getattr(self, argument, 0)\n            setattr(self, argument, data_value)'))
fault('truncated-key-written-back', ['C12'], ('encode.py',
      '            key = key[0:128]',
      '            value_dict[key[0:128]] = value\n            key = key[0:128]'),
      ('encode.py', "    data = []\n    for key, value in sorted(value.items()):",
       "    data = []\n    value_dict = value\n    for key, value in sorted(value.items()):"))
# ---- C13
fault('exchange-limit-126', ['C13'], ('commands.py',
      'if self.exchange is not None and len(self.exchange) > 127:',
      'if self.exchange is not None and len(self.exchange) > 126:'))
fault('queue-alphabet-no-space', ['C13'], ('constants.py',
      "'queue-name': re.compile(r'^[a-zA-Z0-9-_.:@#,/ ]*$')",
      "'queue-name': re.compile(r'^[a-zA-Z0-9-_.:@#,/]*$')"))
fault('fullmatch-to-match', ['C13'], ('commands.py',
      "'exchange-name'].fullmatch(self.exchange)",
      "'exchange-name'].match(self.exchange)"))
fault('marshal-does-not-validate', ['C13'], ('base.py',
      "        self.validate()\n        byte, offset, output",
      "        byte, offset, output"))
fault('delivery-mode-zero-allowed', ['C13'], ('base.py',
      'self.delivery_mode not in [1, 2]',
      'self.delivery_mode not in [0, 1, 2]'))
fault('validate-before-store', ['C13'], ('commands.py',
      "            self.known_hosts = known_hosts\n            self.validate()",
      "            self.validate()\n            self.known_hosts = known_hosts"))
# ---- C15
fault('tz-argument-dropped', ['C15'], ('decode.py',
      "datetime.datetime.fromtimestamp(ts_value,\n                                                  tz=datetime.timezone.utc)",
      "datetime.datetime.fromtimestamp(ts_value)"))
fault('naive-not-made-utc', ['C15'], ('encode.py',
      '            value = value.replace(tzinfo=datetime.timezone.utc)',
      '            pass'))
fault('replace-result-ignored', ['C15'], ('encode.py',
      '            value = value.replace(tzinfo=datetime.timezone.utc)',
      '            value.replace(tzinfo=datetime.timezone.utc)'))
fault('struct-time-mktime', ['C15'], ('encode.py',
      'common.Struct.timestamp.pack(calendar.timegm(value))',
      'common.Struct.timestamp.pack(int(time.mktime(value)))'))
fault('aware-tzinfo-overwritten', ['C15'], ('encode.py',
      "        if value.tzinfo is None or value.tzinfo.utcoffset(value) is None:\n            # assume datetime object is UTC\n            value = value.replace(tzinfo=datetime.timezone.utc)",
      "        value = value.replace(tzinfo=datetime.timezone.utc)"))
# ---- C16
fault('mutable-default-shared', ['C16'], ('commands.py',
      "                     server_properties: typing.Optional[\n                         common.FieldTable] = None,",
      "                     server_properties: typing.Optional[\n                         common.FieldTable] = {},"),
      ('commands.py', '            self.server_properties = server_properties or {}',
       '            self.server_properties = server_properties'))
fault('module-level-default-properties', ['C16'], ('header.py',
      'BasicProperties = typing.Optional[commands.Basic.Properties]',
      'BasicProperties = typing.Optional[commands.Basic.Properties]\n_DEFAULT_PROPERTIES = commands.Basic.Properties()'),
      ('header.py', 'self.properties = properties or commands.Basic.Properties()',
       'self.properties = properties or _DEFAULT_PROPERTIES'))
fault('decoder-lru-cache', ['C16'], ('decode.py',
      'import datetime\n', 'import datetime\nimport functools\n'),
      ('decode.py', 'def short_str(value: bytes)',
       '@functools.lru_cache(maxsize=128)\ndef short_str(value: bytes)'))
fault('class-table-appended', ['C16'], ('base.py',
      "        self.validate()\n        byte, offset",
      "        self.valid_responses.append('x')\n        self.validate()\n        byte, offset"))
fault('decoded-frame-cache', ['C16'], ('frame.py',
      'UNMARSHAL_FAILURE = 0, 0, None', 'UNMARSHAL_FAILURE = 0, 0, None\n_CACHE = {}'),
      ('frame.py', "    content_body = body.ContentBody(b'')\n    content_body.unmarshal(frame_data)\n    return content_body",
       "    content_body = _CACHE.setdefault(len(frame_data), body.ContentBody(b''))\n    content_body.unmarshal(frame_data)\n    return content_body"))
# ---- C17
fault('soft-error-made-hard', ['C17'], ('exceptions.py',
      'class AMQPNotFound(AMQPSoftError)', 'class AMQPNotFound(AMQPHardError)'))
fault('reply-code-value', ['C17'], ('exceptions.py',
      "    name = 'NO-ROUTE'\n    value = 312", "    name = 'NO-ROUTE'\n    value = 313"))
fault('frame-min-size', ['C17'], ('constants.py',
      'FRAME_MIN_SIZE = 4096', 'FRAME_MIN_SIZE = 4069'))
# ---- C18
fault('body-stripped', ['C18', 'C04'], ('body.py',
      '        return self.value\n', '        return bytes(self.value).strip()\n'))
fault('body-len-off-by-one', ['C18'], ('body.py',
      'return len(self.value) if self.value else 0',
      'return len(self.value) - 1 if self.value else 0'))
fault('protocol-header-reader-shifted', ['C18'], ('header.py',
      "struct.unpack('BBB', data[5:8])", "struct.unpack('BBB', data[4:7])"))
fault('heartbeat-channel-one', ['C18', 'C04'], ('heartbeat.py',
      'constants.FRAME_HEARTBEAT, 0, 0)', 'constants.FRAME_HEARTBEAT, 1, 0)'))
# ---- C19
fault('iter-sorted', ['C19'], ('base.py',
      'for attribute in self.__slots__:', 'for attribute in sorted(self.__slots__):'))
fault('amqp-type-from-annotations', ['C19'], ('base.py',
      "return getattr(cls, '_' + attr)", 'return cls.__annotations__[attr]'))
fault('contains-over-annotations', ['C19'], ('base.py',
      'return item in self.__slots__',
      "return item in self.__annotations__ or item == 'name'"))

# ---- constructors (round 2: the frames are analysed from their attributes;
# these alter what the constructor stores)
fault('ctor-routing-key-stripped', ['C01'], ('commands.py',
      "            self.routing_key = routing_key\n",
      "            self.routing_key = routing_key.strip()\n"))
fault('ctor-message-count-masked', ['C01'], ('commands.py',
      "            self.message_count = message_count\n",
      "            self.message_count = message_count and message_count & 0xFFFFFFFF\n"))
fault('ctor-consumer-tag-truncated', ['C01'], ('commands.py',
      "            self.consumer_tag = consumer_tag\n",
      "            self.consumer_tag = consumer_tag[:255]\n"))
fault('ctor-priority-falsy-dropped', ['C02'], ('commands.py',
      "            self.priority = priority\n",
      "            self.priority = priority or None\n"))
fault('ctor-body-size-abs', ['C02'], ('header.py',
      "        self.body_size = body_size\n",
      "        self.body_size = abs(body_size)\n"))
fault('ctor-body-value-stripped', ['C18'], ('body.py',
      "        self.value = value\n", "        self.value = value.rstrip(b'\\x00')\n"))

# ---- refusals of encodable values (C03.A)
fault('array-length-cap', ['C03'], ('encode.py',
      "    data = []\n    for item in value:",
      "    if len(value) > 1024:\n        raise TypeError('field array too long')\n    data = []\n    for item in value:"))
fault('nan-refused', ['C03'], ('encode.py',
      "    if not isinstance(value, float):\n        raise TypeError('float required, received {}'.format(type(value)))\n    return common.Struct.double.pack(value)",
      "    if not isinstance(value, float) or value != value:\n        raise TypeError('float required, received {}'.format(type(value)))\n    return common.Struct.double.pack(value)"))
fault('far-future-datetime-refused', ['C03'], ('encode.py',
      "    if isinstance(value, datetime.datetime):\n        if value.tzinfo is None",
      "    if isinstance(value, datetime.datetime):\n        if value.year > 2100:\n            raise TypeError('timestamp out of range')\n        if value.tzinfo is None"))

# ---- behaviour-preserving edits --------------------------------------
equiv('rename-locals-marshal', [], ('base.py',
      'byte, offset, output, processing_bitset = -1, 0, [], False',
      'byte, offset, output, processing_bitset = -1, 0, list(), False'))
equiv('header-size-literal', [], ('frame.py',
      'byte_count = constants.FRAME_HEADER_SIZE + frame_size + 1',
      'byte_count = 7 + frame_size + 1'))
equiv('end-test-as-slice', [], ('frame.py',
      'if data_in[byte_count - 1] != constants.FRAME_END:',
      'if data_in[byte_count - 1:byte_count] != constants.FRAME_END_CHAR:'))
equiv('guards-reordered', [], ('frame.py',
      "    if byte_count > len(data_in):\n        raise exceptions.UnmarshalingException('Unknown',\n                                               'Not all data received')\n",
      "    if len(data_in) < byte_count:\n        raise exceptions.UnmarshalingException('Unknown',\n                                               'Not all data received')\n"))
equiv('payload-slice-named', [], ('frame.py',
      '    frame_data = data_in[constants.FRAME_HEADER_SIZE:byte_count - 1]',
      '    payload_end = byte_count - 1\n    frame_data = data_in[constants.FRAME_HEADER_SIZE:payload_end]'))
equiv('elif-to-if-returns', [], ('frame.py',
      "    elif frame_type == constants.FRAME_HEADER:\n        return byte_count, channel_id, _unmarshal_header_frame(frame_data)",
      "    if frame_type == constants.FRAME_HEADER:\n        return byte_count, channel_id, _unmarshal_header_frame(frame_data)"))
equiv('unpack-from-vs-unpack', [], ('decode.py',
      'return 2, common.Struct.ushort.unpack_from(value[0:2])[0]',
      'return 2, common.Struct.ushort.unpack(value[0:2])[0]'))
equiv('inline-format', [], ('decode.py',
      'return 4, common.Struct.ulong.unpack(value[0:4])[0]',
      "return 4, struct.unpack('>I', value[0:4])[0]"),
      ('decode.py', 'import datetime\n', 'import datetime\nimport struct\n'))
equiv('ladder-early-returns', [], ('encode.py',
      "    elif -32768 <= value <= 32767:\n        return b's' + short_int(value)\n    elif 0 <= value <= 65535:\n        return b'u' + short_uint(value)",
      "    if -32768 <= value <= 32767:\n        return b's' + short_int(value)\n    if 0 <= value <= 65535:\n        return b'u' + short_uint(value)"))
equiv('ladder-bounds-respelled', [], ('encode.py',
      "    if -128 <= value <= 127:\n        return b'b' + short_short_int(value)\n    elif -32768 <= value <= 32767:\n        return b's' + short_int(value)\n    elif 0 <= value <= 65535:",
      "    if -0x80 <= value < 128:\n        return b'b' + short_short_int(value)\n    elif -32768 <= value <= 32767:\n        return b's' + short_int(value)\n    elif 0 <= value <= 65535:"))
equiv('validate-limit-respelled', [], ('commands.py',
      'if self.virtual_host is not None and len(self.virtual_host) > 127:',
      'if self.virtual_host is not None and len(self.virtual_host) >= 128:'))
equiv('sorted-via-list-sort', [], ('encode.py',
      '    for key, value in sorted(value.items()):',
      '    items = list(value.items())\n    items.sort()\n    for key, value in items:'))
equiv('array-comprehension', [], ('encode.py',
      "    data = []\n    for item in value:\n        data.append(encode_table_value(item))\n    output = b''.join(data)",
      "    data = [encode_table_value(item) for item in value]\n    output = b''.join(data)"))
equiv('index-spelled-shifted', [], ('commands.py',
      'index = 0x000A0028', 'index = (10 << 16) | 40'))
equiv('marshal-join-tuple', [], ('frame.py',
      "    return b''.join([\n        struct.pack('>BHI', frame_type, channel_id, len(payload)), payload,\n        constants.FRAME_END_CHAR\n    ])",
      "    return struct.pack('>BHI', frame_type, channel_id, len(payload)) + \\\n        payload + constants.FRAME_END_CHAR"))
equiv('logging-added-to-decoder', [], ('decode.py',
      "    if not value:\n        return 0, None\n    try:",
      "    if not value:\n        return 0, None\n    _ = len(value)\n    try:"))
equiv('except-exception-outer', ['C09', 'C07'], ('frame.py',
      "    except DECODE_ERRORS as error:\n        raise exceptions.UnmarshalingException(method, error)",
      "    except Exception as error:\n        raise exceptions.UnmarshalingException(method, error)"))
equiv('presence-test-respelled', [], ('base.py',
      "if property_value is not None and property_value != '':",
      "if not (property_value is None or property_value == ''):"))
equiv('contains-via-tuple', [], ('base.py',
      'return item in self.__slots__', 'return item in tuple(self.__slots__)'))
equiv('len-via-attributes', [], ('base.py',
      'return len(self.__slots__)', 'return len(self.attributes())'))
equiv('timestamp-tz-alias', [], ('decode.py',
      "        return 8, datetime.datetime.fromtimestamp(ts_value,\n                                                  tz=datetime.timezone.utc)",
      "        utc = datetime.timezone.utc\n        return 8, datetime.datetime.fromtimestamp(ts_value, tz=utc)"))
equiv('flags-offset-name', [], ('header.py',
      'self.properties.unmarshal(flags, data[12 + offset:])',
      'start = 12 + offset\n        self.properties.unmarshal(flags, data[start:])'))

# ---- equivalents aimed at the round-2 rules ----------------------------
equiv('protocol-header-tuple-assign', [], ('header.py',
      "        self.major_version = major_version\n        self.minor_version = minor_version\n        self.revision = revision",
      "        (self.major_version, self.minor_version,\n         self.revision) = major_version, minor_version, revision"))
equiv('protocol-header-major-or-zero', [], ('header.py',
      "        self.major_version = major_version\n",
      "        self.major_version = major_version or 0\n"))
equiv('codec-explicit-strict', [], ('encode.py',
      "    temp = value.encode('utf-8')",
      "    temp = value.encode('utf-8', 'strict')"),
      ('decode.py', "return length + 1, value[1:length + 1].decode('utf-8')",
       "return length + 1, value[1:length + 1].decode('utf-8', errors='strict')"))
equiv('codec-name-respelled', [], ('encode.py',
      "    temp = value.encode('utf-8')", "    temp = value.encode('UTF-8')"))
equiv('codec-default-encoding', [], ('encode.py',
      "    temp = value.encode('utf-8')", "    temp = value.encode()"))
equiv('boolean-ne-zero', [], ('decode.py',
      "return 1, bool(common.Struct.byte.unpack_from(value[0:1])[0])",
      "return 1, common.Struct.byte.unpack_from(value[0:1])[0] != 0"))
equiv('decimal-scale-by-multiplication', [], ('encode.py',
      "        raw = int(value.scaleb(decimals))",
      "        raw = int(value * (10 ** decimals))"))
equiv('unrelated-class-with-name-attr', [], ('common.py',
      "class Struct:",
      "class _Named:\n    def __init__(self, name, index):\n        self.name = name\n        self.index = index\n        self.flags = 0\n\n\nclass Struct:"))
equiv('os-path-import-unused', [], ('common.py',
      "import struct\n", "import os.path\nimport struct\n"))
equiv('valid-responses-annotated-tuple-free', [], ('base.py',
      "    valid_responses: typing.List = []",
      "    valid_responses: typing.List[str] = []"))
equiv('attributes-returns-copy', [], ('base.py',
      "        return cls.__slots__\n", "        return list(cls.__slots__)\n"))
equiv('body-ctor-annotated', [], ('body.py',
      "        self.value = value\n", "        self.value: bytes = value\n"))

# ---- syntax / spelling variants (round 3)
equiv('decode-via-str-constructor', [], ('decode.py',
      "return length + 1, value[1:length + 1].decode('utf-8')",
      "return length + 1, str(value[1:length + 1], 'utf-8')"))
equiv('encode-via-bytes-constructor', [], ('encode.py',
      "    temp = value.encode('utf-8')", "    temp = bytes(value, 'utf-8')"))
equiv('walrus-byte-count', [], ('frame.py',
      "    byte_count = constants.FRAME_HEADER_SIZE + frame_size + 1\n    if byte_count > len(data_in):",
      "    if (byte_count := constants.FRAME_HEADER_SIZE + frame_size + 1) > len(data_in):"))
equiv('match-on-frame-type', [], ('frame.py',
      "    if frame_type == constants.FRAME_METHOD:\n        return byte_count, channel_id, _unmarshal_method_frame(frame_data)\n    elif frame_type == constants.FRAME_HEADER:\n        return byte_count, channel_id, _unmarshal_header_frame(frame_data)\n    elif frame_type == constants.FRAME_BODY:\n        return byte_count, channel_id, _unmarshal_body_frame(frame_data)",
      "    match frame_type:\n        case constants.FRAME_METHOD:\n            return byte_count, channel_id, _unmarshal_method_frame(frame_data)\n        case constants.FRAME_HEADER:\n            return byte_count, channel_id, _unmarshal_header_frame(frame_data)\n        case constants.FRAME_BODY:\n            return byte_count, channel_id, _unmarshal_body_frame(frame_data)"))

json.dump(F, open(os.path.join(HERE, 'faults.json'), 'w'), indent=1)
json.dump(E, open(os.path.join(HERE, 'equivalents.json'), 'w'), indent=1)
print(len(F), 'faults', len(E), 'equivalents')
